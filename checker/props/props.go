// Package props maps each property to the rules that decide its structural clauses.
package props

import (
	"gojaverif/core"
	"gojaverif/rules"
)

// Prop describes what is decided for one property.
type Prop struct {
	ID          string
	Rules       []*core.Rule
	Explanation string   // what clause is decided, by which analysis
	NotCovered  string   // what the check is silent about
	Assumptions []string // trusted base
	Technique   string   // a few words naming the deciding method
	DesignRef   string
}

// NotApplicable lists properties that are not claimed, with the reason.
type NA struct{ ID, Reason string }

var NotApplicable = []NA{}

var commonAssumptions = []string{
	"go/packages + go/types + go/ssa (x/tools v0.50.0) faithfully represent the Go semantics of /repo's working tree for GOOS=linux GOARCH=amd64 (thorough tier: also GOARCH=386)",
	"the check decides a structural necessary condition of the property over all sites of the current source; it is not a proof of the behavioural property",
	"calls through reflection and dependencies outside the module (regexp2, x/text, stdlib) are not analysed; they are treated as unknown callees",
}

// All lists the claimed properties.
var All = []*Prop{
	{
		ID:    "C08",
		Rules: []*core.Rule{rules.UnwindAgree, rules.UnwindTarget, rules.FinallyEnter, rules.CloseOrder, rules.UncatchableClose, rules.IterPop, rules.IterProto, rules.CtxFields, rules.StalePtr},
		Explanation: "R-UNWINDAGREE: the two compile-time walkers of the block stack (break/continue and return) emit, for every block kind, clean-up instructions with the same effect on vm.tryStack / vm.iterStack (effects derived from the exec methods): a kind unwound by one exit kind and not the other skips a finally or leaves an iterator open. " +
			"R-UNWINDTARGET: the walk that emits the clean-up code of a break/continue leaves its loop over block.outer early only under an identity comparison of the enclosing block with the target block (seeded three times: an early exit decided by the kind of the enclosing block stops a labelled continue at the first inner for-let loop). " +
			"R-FINALLYENTER ('exactly once'): every store that disarms tryFrame.finallyPos (= the finally block is being entered) comes with catchPos of the same frame disarmed - by a store in the same block or by a dominating test that it is already negative; otherwise an exception thrown inside the finally block is caught by the statement's own catch and the finally block runs twice (found on the pinned tree in the enterFinally instruction). " +
			"R-CLOSEORDER ('innermost to outermost'): the loop of vm.restoreStacks that closes the records of the iterator-stack tail steps its index downward. " +
			"R-ITERPOP also requires: an instruction that advances the top iterator with step() takes the record off vm.iterStack on the failure edge before it throws (an iterator whose next() failed is done and must not be closed). " +
			"R-UNCATCHABLECLOSE ('interrupts and stack overflows run none of them'): iterator-closing code on exceptional paths is guarded by a classification excluding uncatchable payloads. " +
			"R-ITERPOP ('exactly once'): an instruction that pops an iterator record removes it from vm.iterStack before any call that can throw a JS exception past it. " +
			"R-CTXFIELDS: try/iterator/reference records pending across a yield are saved, cut, restored and re-based consistently, and a suspension with nothing to save cannot inherit the previous suspension's records. R-STALEPTR: a pointer to an element of a slice kept in a struct field (`tf := &vm.tryStack[i]`, `&vm.callStack[i]`, `&vm.iterStack[i]`, sparse items, ...) is not used on any path after a call from which a function that reassigns that field (append) is reachable - the push moves the records and a write through the old pointer is lost (handleThrow: the catch block ran twice; generator return: resumed after the try statement).",
		Technique:  "sibling table agreement with effects derived from exec methods; controlling-condition classification of cleanup calls; store-before-call ordering; writer/reader field-set agreement",
		DesignRef:  "DESIGN.md section 4, C08",
		NotCovered: "'exactly once, innermost to outermost' as a whole, completion-value override by finally, catch/finally frame state machine (catchPos/finallyPos transitions in enterFinally/leaveFinally), generator return through nested finally blocks (enterNextFinallyFrame boundary tests), which getter of the iteration result is read inside which guard",
	},
	{
		ID:    "C02",
		Rules: []*core.Rule{rules.EmitBalance, rules.PutOnStack, rules.PVariant, rules.PatchEffect, rules.DummyIsolate, rules.EnterSlot, rules.UnwindTarget},
		Explanation: "Narrow: the compiler as a translation is not decided; decided is the operand-stack discipline of the code it emits, which is what the rewrites 'expression vs statement position', 'constant operands vs variables', 'unreachable code added' and 'visible to eval / plain local' exercise. " +
			"The operand-stack effect of every VM instruction type is DERIVED from its exec method (sum of the constant vm.sp adjustments over all normal paths, with summaries of vm helpers; split by fall-through / jump for branching instructions; 238 of 259 types have a known effect). " +
			"R-EMITBALANCE: abstract interpretation of the compiler's emitters over the domain 'net operand-stack effect of the bytecode emitted so far': for both values of the putOnStack flag every fully decidable emission path of every expression emitter leaves exactly the wanted value (1/0), helpers the flag is handed to differ by exactly one slot between the two flag values, statement compilers net 0, flag-less emit helpers agree on one effect over all their paths, and at every forward-jump target patched in the same function (j := len(code); emit(nil); ...; code[j] = jne(...)) the depth reached by the jump equals the depth reached by falling through. Paths with emissions that cannot be typed (calls, loops that emit, placeholders patched elsewhere) are counted and skipped, never guessed. " +
			"R-PUTONSTACK: every path of every function that receives the flag consults it (or ends in a throw). " +
			"R-PVARIANT: each P instruction has the derived effect of its base form minus one. " +
			"R-PATCHEFFECT: the late allocation pass (finaliseVarAlloc) replaces a placeholder access instruction only by one with the same derived effect. " +
			"R-DUMMYISOLATE: entering dead-code (dummy) compilation installs a block chain made only of fresh blocks, so break/continue in dead code cannot register patch positions of the throw-away program in live blocks. " +
			"R-ENTERSLOT: the 'first binding aliases a value already on the stack' trick (enter.stackSize--) is applied only when the scope has no dynamic lookups. " +
			"R-UNWINDTARGET (see C08): break/continue unwind exactly to their target block.",
		Technique:  "operand-stack effect table derived from exec methods (path summation on SSA); abstract interpretation of the emitters over net stack effect with flag specialisation and forward-jump join checks; must-consult path rule; sibling/table agreement; allocation-freshness of the dummy block chain; guarded-decrement belief rule",
		DesignRef:  "DESIGN.md section 4, C02",
		NotCovered: "everything else about the translation: scope analysis and which slot a name resolves to, constant folding results, completion values (needResult), function prologue variants, toString source capture, emission paths through calls/new/template/yield (variable effects), loops that emit, jumps patched through block.breaks/conts (loops, labelled statements, optional chains, try/finally), i.e. the behaviour of the compiled program",
	},
	{
		ID:    "C19",
		Rules: []*core.Rule{rules.JSONShape},
		Explanation: "Narrow: the accepted language and the exact output text are value-level and not decided. Decided are six clauses whose truth is in the shape of builtin_json.go (R-JSONSHAPE): " +
			"(1) a serialiser method that saves a context field (the indent), changes it and restores it on some path restores it on every normal path from the change (path search with the change's own guard kept consistent) - 'exactly the specified text for every indent'; " +
			"(2) every return of JSON.parse lies on the err == io.EOF edge of one more Decoder.Token() call after the top-level value - 'rejecting every other text': no trailing input; " +
			"(3) the decode functions store members with a define (_putProp / createDataProperty / newArrayValues) and contain no [[Set]] call - '__proto__' keys become own properties and no inherited setter runs; " +
			"(4) in str() an object is appended to the serialiser's stack only after a loop that compares it with every entry and throws on a hit dominates the push, and the pop is registered in a defer before the recursion - 'cyclic references' give a TypeError, not a fatal Go stack overflow; " +
			"(5) JSON.stringify and Object.MarshalJSON both enter (*_builtinJSON_stringifyContext).do - 'MarshalJSON agrees with stringify'; " +
			"(6) quote() has the specification's escape table: \\\" \\\\ \\b \\t \\n \\f \\r by their own cases with exactly those strings, r < 0x20 and utf16.IsSurrogate for the \\u forms.",
		Technique:  "must-pass-through path search with condition-consistent pruning (save/restore), controlling-condition check of returns (EOF), who-may-call (define vs set), loop-header dominance + deferred-pop pairing (cycle stack), call-graph sharing, constant-set agreement with the specification's escape table",
		DesignRef:  "DESIGN.md section 4, C19",
		NotCovered: "the accepted JSON language itself (delegated to encoding/json's tokenizer: numbers beyond double range, lone surrogates), duplicate keys and key order, reviver and replacer semantics, toJSON, number formatting, gap clamping, property enumeration order, round-trip equality: input/value-level behaviour",
	},
	{
		ID:    "C12",
		Rules: []*core.Rule{rules.FloatAccum, rules.FloatConv},
		Explanation: "Very narrow: the numerical correctness of the conversions is not decided. R-FLOATACCUM decides three structural necessary conditions of 'the double nearest to the exact value denoted, for inputs of any length' and of shortest/correct digit generation: " +
			"(1) no loop in the engine or the parser carries a float64 through the recurrence x' = x*k + d (digit accumulation rounds at every step beyond 2^53, so a long numeral is not correctly rounded) - two such loops existed on the pinned tree, both repaired; " +
			"(2) the two conversion routines for numerals that do not fit an int64 (parseLargeInt for parseInt, the hexadecimal branch of the lexer's parseNumberLiteral) go through math/big or strconv; " +
			"(3) ftoa.FToStr uses the fast (Grisu) digits only while fast.Dtoa reports success: the !ok edge calls the exact bignum generator. R-FLOATCONV: every float64 -> integer conversion in the engine has an operand that a small interval analysis (constants, math.Mod with a constant modulus, Floor/Trunc/Abs, +-constant, phis, and the comparisons with constants that control the block) places strictly inside the int64 range, or is validated by the round-trip idiom (converted back and compared with the operand); Go leaves the conversion undefined outside the range, where ToInt32/ToUint32/... are defined modulo 2^n and ToIntegerOrInfinity clamps. The dtoa/Grisu internals are listed as not decided.",
		Technique:  "recurrence detection on SSA phis (x*k+d carried by a float64 phi), who-calls check for the exact conversion routes, controlling-edge check of the Grisu fallback",
		DesignRef:  "DESIGN.md section 4, C12",
		NotCovered: "everything numerical: the digit generation algorithms themselves (ftoa bignum path, Grisu round-weed, prefix handling in the buffer), toFixed/toExponential/toPrecision rounding, toString(radix), decimal text to double (delegated to strconv.ParseFloat), radix-prefixed strings in Number(), BigInt to Number",
	},
	{
		ID:    "C01",
		Rules: []*core.Rule{rules.PanicPayload, rules.ASTDispatch, rules.SelfAssert, rules.NilDesc, rules.Recover, rules.Classifier, rules.ReflectSafe, rules.EscapeAgree, rules.EmitBalance, rules.PutOnStack, rules.DummyIsolate, rules.EnterSlot, rules.UnwindTarget, rules.NilProto, rules.LockScript, rules.ConstIdx, rules.BigAlloc, rules.RestTarget},
		Explanation: "Clauses decided: the engine's own ways of producing a non-documented panic are closed. " +
			"R-PANICPAYLOAD classifies every panic(x) of the module (~500) by the static type of x: a type the boundary classifiers accept (derived from exceptionFromValue's case list, the uncatchableException implementers and compileAST on each run), a Value implementer, a re-panic of a recovered/classified value, a panic made unreachable by a preceding no-return call, or an internal assertion in the audited per-function table; a new string/error panic anywhere else is reported. " +
			"R-ASTDISPATCH: every type switch over an interface of goja/ast whose default ends in an internal diagnostic covers every concrete ast type implementing the interface (go/types), up to an audited table of node types that the grammar only places in slots handled by the parent. " +
			"R-SELFASSERT: every unchecked assertion X.self.(*Kind) is justified (built as that kind, previously asserted on a dominating edge, promiseResolve's verified result, or audited). " +
			"R-NILDESC: optional PropertyDescriptor fields are never dereferenced without a nil test (inter-procedural dereference summary). " +
			"R-RECOVER/R-CLASSIFIER (see C14): no recover swallows or misclassifies a payload. " +
			"R-REFLECTSAFE: script operations on reflect-backed host objects never reach a panicking form of package reflect (FieldByIndex; Index beyond Len()) - see C13. " +
			"R-ESCAPEAGREE: the lexer's measuring pass (scanEscape) and the decoder (parseStringLiteral) consume the same maximal number of digits for a legacy octal escape - the decoder panics on its own length self-check otherwise (seeded three times by independent agents). " +
			"R-EMITBALANCE / R-PUTONSTACK / R-DUMMYISOLATE / R-ENTERSLOT (see C02): the decidable part of operand-stack balance of emitted bytecode - an unbalanced sequence shifts the callee/this slots of an enclosing call and ends in a failed Go type assertion or index panic; dead-code break patching and the uint32 underflow of enterBlock.stackSize crash the host outright. " +
			"R-NILPROTO: every field access through a value loaded from a pointer field that script can make nil (baseObject.prototype: null prototypes; proxyObject.target/handler outside the proxy's own methods: revocation) is control-dependent on a non-nil test of the same field path of the same object. " +
			"R-CONSTIDX: every string indexed with a constant k is control-dependent on a length test of the same string implying len > k (comparison of len(s), s != \"\", per-edge for phis, second loads of the same field path) - 50 sites, exact on today's tree; it found `\"abc\"[\"-\"]` / `typedArray[\"-\"]` crashing the host in the integer-index parsers. " +
			"R-ASTDISPATCH also backs its exemption for *ast.PrivateIdentifier with a producer check: a parser function that returns one as a plain expression either reports a syntax error or has every caller test the result for that type. " +
			"R-BIGALLOC: every (*big.Int).Lsh / Exp in package goja with a non-constant shift count / exponent is control-dependent on a comparison of that operand with a bound (a sign test is not a bound): `1n << 2n**63n` panicked in the allocator, out of RunString and - constant-folded - out of Compile. " +
			"R-RESTTARGET: the parser stores into ArrayPattern.Rest / ObjectPattern.Rest only nil or the result of a function that can report a syntax error (sibling agreement of the array and object reinterpreters): `({...f()} = {})` reached the compiler's emitRef ('Compiler bug: Cannot emit reference'). " +
			"R-ESCAPEAGREE also compares the two sides' tests against utf8.MaxRune for \\u{...}: the scanner must keep consuming exactly while the decoder does not reject (`\"\\u{10FFFF}\"` panicked). " +
			"R-LOCKSCRIPT (see C15): no call that may run script while an engine mutex is held, and vm.captureStack is script-free - user code reached from either re-enters machinery that is mid-flight (self-deadlock under interruptLock; unbounded recursion through a throwing `name` getter).",
		Technique:  "panic-operand typing with classifier sets derived from the code, no-return dominance, type-switch exhaustiveness over go/types, justified-assertion and nil-dereference rules with inter-procedural summaries",
		DesignRef:  "DESIGN.md section 4, C01",
		NotCovered: "Go runtime panics at arbitrary sites (index out of range, nil dereference other than the descriptor clause, failed assertions on values other than X.self), operand-stack balance of emitted bytecode beyond the decidable paths of R-EMITBALANCE (calls, loops, jumps patched through block.breaks), parser panics guarded by length precomputation: properties of run-time data",
	},
	{
		ID:    "C10",
		Rules: []*core.Rule{rules.JobQueue, rules.Latch, rules.Tracker, rules.Boundary, rules.BusyFlag},
		Explanation: "R-JOBQUEUE: Runtime.jobQueue is written only by a tail append in enqueuePromiseJob, the drain loop of leave() (swap, range from the head, one call per element, repeat until empty) and the nil resets; nobody else reads it; triggerPromiseReactions and addReactions do nothing but enqueue reaction jobs (no synchronous resolution). " +
			"R-LATCH: both resolving functions test the shared alreadyResolved cell, return at once if set, and set it before any call; (*Promise).fulfill/reject are called only from those closures. " +
			"R-TRACKER: the rejection tracker is told 'reject' only from (*Promise).reject under !handled and 'handle' only from addReactions under !handled, and addReactions marks the promise handled on every path. " +
			"R-BOUNDARY (see C03): the queue is drained on the normal exit of the outermost call and dropped on an interrupt. R-BUSYFLAG: a bool field set to true and back to false around calls that may run script (a busy / re-entrancy flag) is reset by a deferred function - a plain reset is skipped by the Go panic that carries an interrupt, stack overflow or exception, and the flag stays set on the idle object (0 such brackets today; positive control = seed C10/l).",
		Technique:  "field ownership (who-may-write/read), loop-shape check of the drain loop, who-may-call + dominance for the resolved latch, controlling-condition check for tracker notifications",
		DesignRef:  "DESIGN.md section 4, C10",
		NotCovered: "the relative order of reactions across promises and thenable jobs, combinators (all/allSettled/any/race) bookkeeping, nested drains when a Go reaction handler re-enters runWrapped: schedule/history semantics",
	},
	{
		ID:    "C11",
		Rules: []*core.Rule{rules.Revoked, rules.TrapPost, rules.TrapInvariant, rules.TrapThrow, rules.CompatPolarity, rules.NilProto},
		Explanation: "R-REVOKED ('revoked proxies throw on every operation'): in each of the 41 objectImpl methods declared on proxyObject every dereference of p.target and every call receiving it is dominated by p.checkHandler() (directly or through a helper that always calls it), or by an explicit nil test, or the method is an audited exception; and proxyObject overrides every key-kinded and structural internal method (no silent fallback to baseObject). " +
			"R-TRAPPOST ('invariant-breaking handlers are rejected' — the structural half): for each key-kinded trap family (defineOwnProperty, hasProperty, hasOwnProperty, getOwnProp, get, setOwn, setForeign, delete) the Str, Idx and Sym variants call the same proxy check helpers, handler traps and target operations modulo key kind, and validate against the target's getOwnProp of their own key kind. " +
			"R-TRAPINVARIANT: two invariant checks whose shape is decidable - in proxyDeleteCheck every normally returning path with trapResult true and a non-nil target property passes target.self.isExtensible() (both the configurable and the extensible test apply to every existing property, not only to accessor/flagged ones); in proxyOwnKeys the value tested for non-configurability of an omitted key can come from target.getOwnProp (key iterators of most kinds carry no value). " +
			"R-TRAPTHROW: a conditional throw (typeErrorResult(throw, ...)) in a proxyObject method occurs only under a falsish trap result; everything else - a trap answer that contradicts an invariant of the target - is rejected unconditionally, also for Reflect.* callers. " +
			"R-NILPROTO (see C01): outside the proxy's own methods every dereference of proxyObject.target / handler is nil-guarded (a revoked callable proxy passed to Function.prototype.toString crashed the host). " +
			"R-COMPATPOLARITY: every `return false` of __isCompatibleDescriptor that is controlled by a sameness test of a descriptor field (SameAs / identity of the accessor functions) lies on the not-same edge, as in the reference implementation baseObject._defineOwnProperty; the accessor branch was inverted on the pinned tree (reported by three independent agents).",
		Technique:  "dominance of a revocation check over every target use (SSA, with helper summaries); sibling callee-set agreement across key kinds; method-set override completeness; must-pass-through with excusing edges; value-origin (phi closure) check",
		DesignRef:  "DESIGN.md section 4, C11",
		NotCovered: "whether each post-check's boolean conditions are the specification's (__isCompatibleDescriptor, the rest of proxyOwnKeys completeness): decision tables over descriptor values; forwarding equivalence as a whole",
	},
	{
		ID:    "C06",
		Rules: []*core.Rule{rules.StrBirth, rules.LazyScan, rules.ScratchObj, rules.StrAppend},
		Explanation: "Normal form: asciiString holds only bytes < 0x80; unicodeString holds at least one unit >= 0x80; an imported Go string decides lazily. ===, hashing and CompareTo assume it. " +
			"R-STRBIRTH enumerates every birth of the two representation types in the module (constants, conversions, and slices/makes of unicodeString that flow on as a string) and requires an enumerated idiom: for asciiString a pure-ASCII constant, an audited ASCII producer (strconv, ftoa, big.Int, time.Format with an ASCII layout, fmt.Sprintf of numbers), values derived from asciiStrings, byte buffers/builders all of whose writes are ASCII, control dependence on a no-wide-unit test or flag, the early-exit scan idiom, importedString.s after the scan found no wide unit; for unicodeString the unistring.Scan/AsUtf16 result, control dependence on wide-unit evidence (a >= 0x80 comparison, a non-nil UTF-16 source used whole, a flag raised only under such evidence), or building on a unicodeString receiver. Builders kept in struct fields are checked across methods (flag lowered wherever non-provable content is written). " +
			"R-LAZYSCAN: an imported Go string never consults its lazily computed UTF-16 form, nor uses its raw UTF-8 bytes for anything encoding-sensitive (ordering, hashing, length, indexing), before the scan ran. " +
			"R-SCRATCHOBJ: between Value.baseObject(r) - which for a string primitive returns the Runtime's shared scratch String object - and every use of its result there is no call that may run script (path search, refreshed by a new baseObject call); otherwise `\"abc\"[key]` with a key whose toString touches another string reads that other string. " +
			"R-STRAPPEND: no append() has a destination deriving from a unicodeString parameter or receiver (strings are shared; append writes into spare capacity).",
		Technique:  "who-may-construct over SSA births with constant evaluation, flag/evidence control dependence and builder write discipline; guard-freshness dataflow for the lazy scan",
		DesignRef:  "DESIGN.md section 4, C06",
		NotCovered: "surrogate handling and lone-surrogate preservation (trim/case mapping/normalize go through utf16.Decode), case mapping tables, that StrictEquals/hash/CompareTo are right given the normal form, equality of two unscanned imported strings with invalid UTF-8",
	},
	{
		ID:    "C07",
		Rules: []*core.Rule{rules.FreshArray, rules.StaleLen, rules.SpareCap, rules.SortBound, rules.LenWritable, rules.OverrideClosure, rules.ElemCount, rules.TruncAgree, rules.RawResize, rules.DenseView, rules.HostSlice},
		Explanation: "Clauses decided (necessary conditions, not the behaviour): (1) 'generic vs fast paths inside methods': R-FRESH-ARRAY runs the guard-freshness dataflow over every function that obtains a *arrayObject from checkStdArray*/checkStdArrayObj*: each read of .values (and of an element or sub-slice of a snapshot loaded from it) must be reached only by paths on which no call that may run script (species constructors, callbacks, Proxy traps, valueOf/toString, getters) happened since the check - otherwise the fast path reads a stale dense snapshot where the generic algorithm re-reads through [[Get]]. " +
			"R-STALELEN is the same dataflow on integers: an index or slice bound into the snapshot that is computed from the toLength(...) result read at the start of the method needs, on every path, either no script-running call since that read or an equality test of the old length against the array's current length/len(values) (otherwise a shrunk array is indexed out of range: a Go panic escaping to the host). R-SORTBOUND: the in-place sort of Go-backed arrays compares every index with the current sortLen() before sortGet/swap (the comparator runs between accesses). " +
			"(2) 'switching storage strategy / bookkeeping counters': R-SPARECAP also requires every function that removes elements from .values (in-place shrink or nil store) to update objCount, because checkStdArrayObj takes objCount == length == len(values) as proof of density and an over-count lets a holey array pass. R-SPARECAP classifies every store to arrayObject.values (fresh, same, grow-under-cap-check, shrink) and requires each in-place shrink to nil the slots it cuts off, which the grow-into-capacity sites (expand, unshift, splice) rely on. " +
			"(3) 'defineProperty on length': R-LENWRITABLE - in defineArrayLength every path from the storage's length-setter call to a return reads descr.Writable (ArraySetLength defers writable:false past a blocked truncation, never drops it). " +
			"(4) every array storage kind (arrayObject, sparseArrayObject, objectGoSlice, objectGoArrayReflect, objectGoSliceReflect, dynamicArray) overrides the complete index-aware method set (R-OVERRIDECLOSURE), so no baseObject string-key implementation is reached for an index key. " +
			"(5) 'switching storage is never observable / non-configurable tail': R-ELEMCOUNT - a value coming out of _defineOwnProperty (possibly a *valueProperty) that is stored into the element storage of an array object is counted in propValueCount (and objCount) of the object that receives it, also when that is the object the array has just been converted into; objCount grows only under `existing == nil`; the conversions in expand() carry propValueCount over. R-TRUNCAGREE - in both _setLengthInt the range scanned for non-configurable elements is exactly the range cut off (loop boundary operator vs. slice bound / findIdx predicate). " +
			"R-RAWRESIZE - a built-in that resizes a guarded array in place (assigns .values, setArrayValues, writes .length) does so under lengthProp.writable, and under extensible when it may add elements, or the array comes from checkNewStdArrayObj. R-DENSEVIEW: outside the array types, arrayObject.values is indexed, sliced or measured only on an array that came out of a checkStdArray* guard or was created in the function; a bare `o.self.(*arrayObject)` with a home-made condition (seeded: reverse() without the objCount test) treats holes as values. Audited exceptions are re-checked (pop: every element it loads is compared with nil). R-HOSTSLICE: every in-place re-slice of a host-owned Go slice behind objectGoSlice / objectGoSliceReflect (grow within capacity, shrink) is preceded by a zeroing loop over the slots it uncovers or cuts off - the capacity of a host slice holds whatever the Go program left there.",
		Technique:  "guard-freshness dataflow (forward must-analysis over SSA with inter-procedural summaries and a may-run-script call-graph fact); store classification with dominance/loop-header discharge; must-pass-through on the SSA CFG; method-set override closure",
		DesignRef:  "DESIGN.md section 4, C07",
		NotCovered: "index arithmetic inside the fast paths once the length is validated, the sort algorithm (stability, permutation), the arithmetic of ArraySetLength with non-configurable tails, sparse<->dense transition heuristics and the contents they carry over, agreement of each generic algorithm with the specification text",
	},
	{
		ID:    "C18",
		Rules: []*core.Rule{rules.MapEncaps, rules.KeyNorm, rules.Tombstone, rules.LazyScan, rules.NumBirth, rules.NumRange, rules.HashReset},
		Explanation: "R-MAPENCAPS: every write of a field of mapEntry/orderedMap/orderedMapIter and every access of their link fields lies in methods of those types (the tombstone/linked-list invariants are then local to map.go); size is +1 only on the insertion edge of set, -1 only on the found edge of remove, 0 only in clear. " +
			"R-TOMBSTONE (live iteration under deletion, structural half): remove() marks the found entry with key = nil and leaves that entry's own iterPrev intact, clear() marks every entry inside its loop, and next() takes the iterPrev step inside a loop controlled by key == nil (any number of adjacent tombstones). " +
			"R-KEYNORM: in lookup the hashed and compared key, and in set the stored key, is φ(key, intToValue(0)) under key == _negativeZero. " +
			"Key equality across representations: R-LAZYSCAN (an imported Go string never consults its lazily computed UTF-16 form, nor uses its raw bytes for anything encoding-sensitive, before the scan ran; hash() scans) and R-NUMBIRTH (canonical numbers, see C05) — SameValueZero lookups are hash-then-SameAs on representations. " +
			"R-HASHRESET: every implementation of hash() that writes into the Runtime's shared maphash.Hash resets it on every path from the write to its return (a hasher cleaned before instead of after use makes the next key of any type hash from a dirty state).",
		Technique:  "field ownership (who-may-write/read), SSA phi/dominance check of key normalisation, guard-freshness dataflow for the lazy string scan, who-may-construct for numbers",
		DesignRef:  "DESIGN.md section 4, C18",
		NotCovered: "iterator liveness under deletion/clear/refill as a whole (the relinking arithmetic in remove/clear, entries added after clear): a history property of the data structure; only the structural half (R-TOMBSTONE) is decided; agreement of the per-type hash functions with SameValueZero beyond the lazy-scan clause",
	},
	{
		ID:    "C20",
		Rules: []*core.Rule{rules.GuardTable, rules.Restore, rules.StdRegexp},
		Explanation: "Clause decided: 'whether the optimised path for unmodified RegExp objects or the generic protocol path is taken' is unobservable only if every property the protocol path reads from the regexp de-optimises the fast path when redefined. R-GUARDTABLE computes G = the constant names passed to guardedObject.guard() for RegExp.prototype, and R = the constant names read with getStr from the value handed to checkStdRegexp (taint followed into static callees) plus those read by the built-in flags getter, and requires R ⊆ G up to an audited exemption table (lastIndex, constructor, source). It also checks that every mutating own-property method of regexpObject clears `standard` and that guardedObject's three string mutators call check(). " +
			"R-RESTORE (match cache of the backtracking engine): the rune temporarily substituted at a start position inside a surrogate pair is restored on every path that leaves the []rune buffer referenced by the per-regexp cache (paths are explored with consistent branching on repeated conditions; a path that sets r.cache = nil is excused). R-STDREGEXP: the nil test of a checkStdRegexp() result - the branch between the fast path and the generic exec/lastIndex protocol - is not separated from the call by anything that may run script (argument coercion, species constructor lookup): the pristine-regexp answer is a snapshot, and script in between can install an exec hook the fast path then bypasses (found: split evaluated the guard before speciesConstructorObj).",
		Technique:  "writer/reader table agreement: constants of guard(...) vs constant getStr names on a tainted value, method-override presence; save/overwrite/restore must-pass-through with condition-consistent path exploration",
		DesignRef:  "DESIGN.md section 4, C20",
		NotCovered: "equality of the two regexp engines' match results, UTF-16 index mapping, lastIndex evolution, named groups, validity of the cached position map: all value-level",
	},
	{
		ID:    "C16",
		Rules: []*core.Rule{rules.InstrImmut, rules.InstrAlias, rules.InstrEscape, rules.PrimImmut, rules.LazySync, rules.Globals, rules.XRuntime, rules.StrAppend},
		Explanation: "Sharing is race-free iff shared memory is never written after publication or is synchronised. " +
			"R-INSTRIMMUT: none of the ~260 exec(*vm) methods of types implementing `instruction` stores to memory reached through its receiver (access-path analysis: FieldAddr/IndexAddr/load chains; through pointers, slices, maps), directly or through a statically called function (writes-through-parameter summary, least fixed point). " +
			"R-INSTRALIAS: Program-owned reference data handed to runtime-owned mutable state is copied first (names maps are shared only on the !extensible edge with a fresh map on the other; regexp literals go through clone(); every clone() returns a fresh allocation on every path). " +
			"R-INSTRESCAPE: no []Value or *valueProperty held in an instruction becomes the storage of a runtime object (stored into memory not rooted at the receiver, or passed to a module function that keeps the reference) without being copied. " +
			"R-LAZYSYNC: every access of importedString.u outside scan() is ordered after the lazy scan (ensureScanned() on the same string or scanned.Load() == true on every path, or a string allocated in the same function) - no semantic exceptions, an unsynchronised read is a race even when both outcomes agree. " +
			"R-PRIMIMMUT: no method of a primitive Value type writes through its receiver, except inside a function that is only ever run by the receiver's own sync.Once. " +
			"R-GLOBALS: every package-level variable written outside package initialisation is written only under a package-level sync.Once / mutex (or in the audited profiler control API). " +
			"R-XRUNTIME: ToValue and every valueContainer.toValue compare the object's runtime with the receiving Runtime and panic on mismatch (or route through ToValue). " +
			"R-STRAPPEND (see C06): string values shared between Runtimes are never appended to in place.",
		Technique:  "write-effect analysis over SSA access paths with inter-procedural writes-through summaries; alias obligations with copy/clone idioms; sync.Once discipline; who-checks rule for cross-runtime objects",
		DesignRef:  "DESIGN.md section 4, C16",
		NotCovered: "what the compiler puts into instruction fields (e.g. whether `extensible` is computed from the right scope), Go-API paths other than ToValue/valueContainer that accept Values (Callable arguments), races inside dependencies (regexp2, x/text), equality of concurrent and isolated results",
	},
	{
		ID:    "C14",
		Rules: []*core.Rule{rules.Classifier, rules.Recover, rules.GoError, rules.InterruptSync, rules.UncatchableClose, rules.LockScript, rules.TryError, rules.ExStack},
		Explanation: "R-CLASSIFIER: in vm.exceptionFromValue (the single place where a panic payload becomes a script-catchable Exception) no case type accepts an implementer of uncatchableException (go/types assignability over every named type of the package), *Object is matched before Value, the *Object and Value cases store the matched value itself in Exception.val (SSA identity), and unknown payloads yield nil. " +
			"R-RECOVER: for each of the recover() sites of the module and each caller of tryFunc, on the non-nil branch every exit is dominated by a re-panic of the same value, a call to handleThrow with it, or a successful classification; handleThrow re-panics what exceptionFromValue cannot convert. " +
			"R-GOERROR: at every bridge for errors returned by host code (reflected native functions, json.Marshaler) NewGoError(err) is dominated by the false edges of err.(*Exception) and isUncatchableException(err), and the *Exception branch re-panics err itself. " +
			"R-INTERRUPTSYNC / R-UNCATCHABLECLOSE (see C15): the interrupt flag is cleared only by leaveAbrupt/the public API, so it stays raised while the InterruptedError unwinds and no script catch/finally/iterator-return code can run. " +
			"R-LOCKSCRIPT: capturing the stack of an exception (vm.captureStack, called when an exception is created or thrown) runs no script, so no user getter can run - and throw - in the middle of raising another error. R-TRYERROR: the *Exception returned by vm.try is converted to a Go `error` only inside a boundary function (deferred recover classifying with asUncatchableException); an API that reports errors but catches with a bare vm.try lets an interrupt escape as a Go panic with the interrupt still pending (Runtime.New/Set, ExportTo of an iterable, Object.MarshalJSON did). R-EXSTACK: every return of vm.exceptionFromValue that can carry a non-nil *Exception is reached only through the `ex.stack == nil` test that fills in the stack of exceptions created without one.",
		Technique:  "type-switch assignability over go/types, SSA value identity, must-pass-through on recover handlers with controlling-condition classification",
		DesignRef:  "DESIGN.md section 4, C14",
		NotCovered: "stack-trace contents and the position of the top frame, errors.Is/As chains through GoError (value-level), every sequence of frame kinds, StackOverflowError observability through natives that flatten the error into a new one",
	},
	{
		ID:    "C15",
		Rules: []*core.Rule{rules.InterruptSync, rules.Poll, rules.UncatchableClose, rules.TryPair, rules.Boundary, rules.ScopedState, rules.PairDefer, rules.ExitAgree, rules.Classifier, rules.LockScript, rules.TryError},
		Explanation: "R-INTERRUPTSYNC decides the race-freedom clause for the engine's own accesses: vm.interrupted is only touched through sync/atomic, vm.interruptVal only between interruptLock.Lock/Unlock, the value is published before the flag is raised, the flag is raised only in vm.Interrupt and cleared only in vm.ClearInterrupt which is reached only from the public API and leaveAbrupt (so it stays raised for the whole unwinding), and the transitive callees of Runtime.Interrupt/ClearInterrupt touch no other runtime state. " +
			"R-POLL: every instruction-dispatch loop loads the flag atomically on each iteration, unconditionally, before the dispatch, and the loaded value gates the dispatch. " +
			"R-LOCKSCRIPT ('stops the script promptly'): between Lock and Unlock of every sync.Mutex of the engine (interruptLock, the profiler's and weak map's) no call may run script according to the script-free summary, and vm.captureStack - which builds the InterruptedError's stack - is script-free: the VM is re-entrant on one goroutine, so script reached under the lock deadlocks the interrupted run on its own mutex (found on the pinned tree: a `name` getter on a native frame). " +
			"R-UNCATCHABLECLOSE: code that closes iterators on an exceptional path is guarded by a classification that excludes uncatchable payloads ('run no further catch or finally'). " +
			"R-TRYPAIR/R-BOUNDARY/R-SCOPEDSTATE/R-PAIRDEFER/R-EXITAGREE (see C03): the runtime is reusable afterwards, queued jobs are dropped, no activation marker or stale register stays set. R-TRYERROR: the *Exception returned by vm.try is converted to a Go `error` only inside a boundary function (deferred recover classifying with asUncatchableException); an API that reports errors but catches with a bare vm.try lets an interrupt escape as a Go panic with the interrupt still pending (Runtime.New/Set, ExportTo of an iterable, Object.MarshalJSON did).",
		Technique:  "atomic/lockset/ordering/who-may-write rules and effect containment over the call graph; dominance of the poll in dispatch loops; controlling-condition classification of cleanup calls",
		DesignRef:  "DESIGN.md section 4, C15",
		NotCovered: "wall-clock promptness inside a single long-running native builtin (one instruction), interrupt-while-idle semantics beyond the boundary rule, races inside dependencies",
	},
	{
		ID:    "C17",
		Rules: []*core.Rule{rules.FreshDetach, rules.IdxBound, rules.UnsafeOwner, rules.FloatConv},
		Explanation: "Memory-safety clause. Element access is unsafe.Add(SliceData(buf), idx) with no bounds check and the only run-time event that invalidates a once-valid index is detach (length/offset/elemSize/viewedArrayBuf are written only at construction: checked). " +
			"R-FRESH-DETACH is a forward must-dataflow over SSA with inter-procedural summaries: every call of typedArray.{get,set,getRaw,setRaw,less,swap,export} and every slicing/indexing/copy of arrayBufferObject.data must be reached only by paths on which the buffer was checked not-detached (ensureNotDetached(true), the true edge of ensureNotDetached(false)/isValidIntegerIndex, !detached), or is a brand-new unescaped buffer, after the last call that may run script and return. 'May run script' is a greatest-fixed-point summary over the VTA call graph (calls that only run script on a path ending in panic do not count; typeErrorResult(true,..) is recognised as no-return). " +
			"Side obligations checked on every run: the value passed to typedArray.set is already primitive (conversion before the element pointer is computed); typeMatch implementations are call-free; assertCallable/assertConstructor implementations never invoke; the sort-context needValidate protocol; field stability; defaultCtor is always r.global.<TypedArray>; buffer data is only replaced by detach() or on new buffers; ensureNotDetached returns true only on the !detached edge. " +
			"R-IDXBOUND (index range): for each of the 43 accessor calls indexed with X.offset + k a small linear-inequality prover shows k - X.length + 1 <= 0 and -k <= 0 from the controlling branch conditions of the call, the definitions of the values involved (min/max, relToIdx - itself proved from its body -, x/c, +-const), phis split per incoming edge with that edge's conditions, loop counters that only move towards the safe side, the post-condition of typedArrayCreate (result length >= requested, checked) and typedArrayObject.length >= 0. One site is an audited exception (filter's keptTa). The same prover decides the two places where the address of an element is taken from the byte slice (&data[(offset+k)*elemSize]), the three copy() calls whose destination is a slice of a view's buffer (explicit end <= offset+length, or start + number of source elements <= length; element sizes are unified under a defaultCtor equality test), and typedArray.export is called with exactly (X.offset, X.length). " +
			"R-UNSAFEOWNER: package unsafe is referenced only in the element accessors (whose call sites are the guarded uses) and an audited table of dereference-free idioms.",
		Assumptions: []string{
			"constructing through an intrinsic %TypedArray% constructor (X.defaultCtor, always loaded from r.global) with primitive arguments runs no user code: its 'prototype' property is a non-configurable data property",
			"objects passed as receivers/arguments to module functions do not become reachable by script except through their *Object handle (X.val)",
		},
		Technique:  "guard-freshness forward dataflow on SSA with may-run-script kills (VTA call graph fixed point), escape-aware local objects, alias summaries; symbolic linear-inequality bounds proof over SSA (branch conditions + definitions, depth-bounded search); who-may-use rule for package unsafe",
		DesignRef:  "DESIGN.md section 4, C17",
		NotCovered: "index ranges of the 9 accessor calls whose index is absolute (newly created arrays indexed from 0, the sort context's cached offset) and of the remaining raw byte-slice arithmetic on ArrayBuffer.data (source slices, DataView offsets, ArrayBuffer.prototype.slice); integer overflow of index arithmetic; byte-level NumericToRawBytes semantics; aliasing equality of views; Go-side []byte sharing after Detach",
	},
	{
		ID:    "C13",
		Rules: []*core.Rule{rules.ExportCycle, rules.ExportCache, rules.WrapperTxn, rules.SpareCap, rules.ReflectSafe, rules.HostSlice},
		Explanation: "Clause decided: 'exporting a script-built object graph preserves sharing and cycles within one export' and, as its safety half, 'no export recursion aborts the host'. R-EXPORTCYCLE enumerates every implementation of objectImpl.export / exportToMap / exportToArrayOrSlice (and the generic helpers); each one that contains a recursion point into the object's own contents (exportValue, X.self.export, toReflectValue) must (a) for the untyped variant look its own object up with ctx.get and recurse only on the miss edge, (b) register its own object with ctx.put/putTyped on every path before each recursion point (dominance); typed variants must only be invoked on the miss edge of ctx.getTyped. Pure pass-through to another object's implementation is recognised as delegation. " +
			"R-EXPORTCACHE: inside the cache itself an image once recorded is never forgotten - in put/putTyped a freshly made per-type table is stored into ctx.cache[key] only on the miss edge of the lookup or after the previous entry was copied into it. " +
			"R-WRAPPERTXN ('host values wrapped by ToValue are live views'): overwriting a slot of a reflect-backed struct/array whose wrapper was handed out is detach -> convert -> (drop from cache | re-attach): on the err != nil edge of toReflectValue the detached wrapper is re-attached with setReflectValue, and the cache entry is removed only under err == nil. R-SPARECAP applies the spare-capacity discipline to valueArrayCache (shrink clears what it cuts off; grow re-slices into capacity). " +
			"R-REFLECTSAFE: script-chosen indexes and field paths never reach the panicking forms of package reflect - no (reflect.Value).FieldByIndex, and every (reflect.Value).Index(i) is compared with a Len() first (locally, at every call site of a helper incl. bound-method thunks, or by constructing the destination with that length). R-HOSTSLICE: every in-place re-slice of a host-owned Go slice behind objectGoSlice / objectGoSliceReflect (grow within capacity, shrink) is preceded by a zeroing loop over the slots it uncovers or cuts off - the capacity of a host slice holds whatever the Go program left there. R-FLOATCONV: every float64 -> integer conversion in the engine has an operand that a small interval analysis (constants, math.Mod with a constant modulus, Floor/Trunc/Abs, +-constant, phis, and the comparisons with constants that control the block) places strictly inside the int64 range, or is validated by the round-trip idiom (converted back and compared with the operand); Go leaves the conversion undefined outside the range, where ToInt32/ToUint32/... are defined modulo 2^n and ToIntegerOrInfinity clamps. The dtoa/Grisu internals are listed as not decided.",
		Technique:  "get/put-before-recursion dominance over SSA for every implementation of the export interface methods; controlling-condition classification of map updates and of the two outcomes of a fallible conversion",
		DesignRef:  "DESIGN.md section 4, C13",
		NotCovered: "round-trip identity ToValue/Export, ExportTo deep equality, live-view aliasing of wrapped structs/maps/slices beyond the overwrite transaction: reflection-driven, value- and history-level",
	},
	{
		ID:    "C03",
		Rules: []*core.Rule{rules.TryPair, rules.Boundary, rules.CtxFields, rules.ScopedState, rules.PairDefer, rules.ExitAgree, rules.GenResume, rules.GrowInit, rules.StalePtr, rules.BusyFlag},
		Explanation: "goja unwinds by Go panics; handleThrow stops at the first tryPanicMarker frame for payloads it does not convert and trusts the frame's owner to pop it. " +
			"R-TRYPAIR: every function that acquires a marker frame (pushTryFrame(tryPanicMarker,..) or a wrapper that hands the frame to its caller) registers popTryFrame in a defer before any other call; frames turned into markers in place are tagged and skipped by handleThrow for uncatchable payloads. " +
			"R-BOUNDARY: in each recover handler that converts an uncatchable payload into an error return, the uncatchable branch reaches leaveAbrupt() guarded only by the empty call stack, other payloads are re-panicked, every normal return passes leave()/clearStack(), and leaveAbrupt drops the job queue and clears the interrupt flag. " +
			"R-CTXFIELDS: the register set saved by saveCtx, restored by restoreCtx and by handleThrow equals the fields of `context`; every auxiliary stack of vm is snapshotted by pushTryFrame and truncated on unwinding; suspend/resume move exactly the per-activation stacks and re-base exactly the positional tryFrame fields. All sets are derived from the struct declarations on each run. " +
			"R-SCOPEDSTATE: vm fields that name the activation being run for the duration of one Go call (table: curAsyncRunner) are reset by a deferred closure registered before any further call, so that a panic-borne unwind (interrupt, stack overflow, host panic) cannot leave them set on the idle Runtime. " +
			"R-PAIRDEFER: the runtime-level acquire/release pairs of a confirmed table (pushToStringStack/popFromStringStack, AsyncContextTracker.Resumed/Exited) release in a defer registered before any further call; a deferred vm.popCtx() in a recovering boundary function runs only if the matching pushCtx() completed. " +
			"R-EXITAGREE: leaveAbrupt() resets at least the vm/Runtime fields that the normal outermost exit (RunProgram's tail and leave()) resets. R-GENRESUME (see C09): the context pushed by generator.enterNext() is popped before every return of next/nextThrow, so no call-stack entry outlives a resumed generator or async continuation. " +
			"R-GROWINIT: a slice of records that is grown in place (s = s[:len(s)+k], resurrecting whatever was popped earlier) gets every field of the new element assigned, or the element overwritten, in the same function; today the VM pushes with append(s, T{...}) only (0 sites; positive control = seed C03/g, which forgot tryFrame.exception). R-STALEPTR: a pointer to an element of a slice kept in a struct field (`tf := &vm.tryStack[i]`, `&vm.callStack[i]`, `&vm.iterStack[i]`, sparse items, ...) is not used on any path after a call from which a function that reassigns that field (append) is reachable - the push moves the records and a write through the old pointer is lost (handleThrow: the catch block ran twice; generator return: resumed after the try statement). R-BUSYFLAG: a bool field set to true and back to false around calls that may run script (a busy / re-entrancy flag) is reset by a deferred function - a plain reset is skipped by the Go panic that carries an interrupt, stack overflow or exception, and the flag stays set on the idle object (0 such brackets today; positive control = seed C10/l).",
		Technique:  "panic-safe acquire/release pairing (defer-before-next-call), must-pass-through on the CFG with controlling-condition classification, writer/reader field-set agreement derived from struct declarations",
		DesignRef:  "DESIGN.md section 4, C03",
		NotCovered: "that the restored values are the right ones (offset arithmetic), call-depth limit arithmetic, effects of a failed k-th callback inside a builtin on that builtin's own data, 'behaves exactly as a runtime that executed only the completed effects' as a whole",
	},
	{
		ID:    "C09",
		Rules: []*core.Rule{rules.CtxFields, rules.TryPair, rules.GenResume, rules.MarkerTest, rules.GenState, rules.UncatchableClose, rules.StalePtr},
		Explanation: "Faithful suspension requires that suspend() and resume() move exactly the per-activation state. R-CTXFIELDS derives from the declarations of vm, context, execCtx and tryFrame the set of registers and auxiliary stacks and checks that suspend saves and cuts each stack that resume appends back, that execCtx has a slot for each, and that every positional tryFrame field recorded by pushTryFrame is made relative by suspend and absolute by resume (or recomputed). " +
			"R-TRYPAIR: the generator/async entry points (generator.next/nextThrow, generatorObject.init/_return, asyncRunner.start) release their marker frame panic-safely, so the runtime and the generator protocol remain usable after an interrupt/stack overflow inside a body. " +
			"R-GENRESUME: next()/throw() reach the suspended body only by resuming it - enterNext() (which calls vm.resume(&g.ctx)) dominates every return of generator.next/nextThrow, and the saved stacks of execCtx are touched only by vm.suspend/vm.resume (audited read-only exception: captureAsyncStack) - so an injected exception always unwinds through the body's open iterators and finally blocks. " +
			"R-MARKERTEST: whoever classifies a try frame as an entry marker by catchPos == tryPanicMarker also tests the in-place tag finallyRet == -2 (a generator frame whose finally runs for return() carries the same catchPos). " +
			"R-GENSTATE: throw()/return() delivered to a generator in suspendedStart store genStateCompleted on every path before leaving (GeneratorResumeAbrupt step 2); when the inner iterator of a yield* throws, the delegation is ended before the exception is thrown into the body. R-GENRESUME also requires vm.popCtx() before every return of generator.next/nextThrow. R-UNCATCHABLECLOSE (see C08): generator.return() closes the iterators the body still has open - dropStacks (truncate without closing) is reserved for uncatchable payloads. R-STALEPTR: a pointer to an element of a slice kept in a struct field (`tf := &vm.tryStack[i]`, `&vm.callStack[i]`, `&vm.iterStack[i]`, sparse items, ...) is not used on any path after a call from which a function that reassigns that field (append) is reachable - the push moves the records and a write through the old pointer is lost (handleThrow: the catch block ran twice; generator return: resumed after the try statement).",
		Technique:  "writer/reader field-set agreement derived from struct declarations; panic-safe acquire/release pairing; must-pass-through (dominance) of the resume call; who-may-access on saved-context fields; sibling-test agreement",
		DesignRef:  "DESIGN.md section 4, C09",
		NotCovered: "the generator state machine itself (results of next/throw/return sequences), yield* delegation protocol, survival of locals and partially evaluated expressions (stack copy contents), async ordering: history-level semantics",
	},
	{
		ID:    "C04",
		Rules: []*core.Rule{rules.SetOwnGuard, rules.OverrideClosure, rules.LazyOrder, rules.PropCounters, rules.KeyKindAgree, rules.CowNames, rules.ElemCount, rules.TruncAgree, rules.RawResize, rules.KindFlip, rules.LazyNames, rules.DescFirst},
		Explanation: "R-SETOWNGUARD (OrdinarySet belief, sibling contradiction rule): in every function carrying the Receiver of a [[Set]] (a `receiver Value` parameter), each X.self.setOwn{Str,Idx,Sym} call is control-dependent on receiver == X for the same SSA value X. " +
			"R-OVERRIDECLOSURE: from go/types method sets, for each of the ~50 object kinds and each key kind K, if getOwnProp<K> resolves outside baseObject (the kind answers [[GetOwnProperty]] from custom storage) then get/hasOwnProperty/delete/defineOwnProperty/setOwn/setForeign/hasProperty<K> and the matching enumerators also resolve outside baseObject, or the baseObject version provably only dispatches back through o.val.self to overridden methods, or the (kind, method) pair is an audited table exception. " +
			"Key-order bookkeeping (index keys are moved to the front lazily): R-LAZYORDER - every read of idxPropCount outside the bookkeeping is dominated by ensurePropOrder()/fixPropOrder() on the same object ('no index keys' shortcuts are only valid on an up-to-date counter); R-PROPCOUNTERS - in _delete each of lastSortedPropLen/idxPropCount is decremented under the comparison of the removed position with that very counter and under no comparison with the smaller one. " +
			"R-KEYKINDAGREE: (*Object).setStr / setIdx / setSym call the same functions modulo key kind, invoke the same interface methods and read the same fields of the property record. R-COWNAMES: every in-place element write into a slice obtained from baseObject.propNames is control-dependent on !namesMarkedForCopy, or follows a copy-on-write branch (marker tested, fresh array installed), or is in the audited table - an enumeration in progress shares that backing array. R-ELEMCOUNT / R-TRUNCAGREE / R-RAWRESIZE (see C07) decide the array side of 'a non-configurable property cannot be deleted' and 'a non-extensible object gains no keys': the counters that let ArraySetLength skip the search for non-configurable elements are exact, the search covers what the cut removes, and in-place resizes respect extensible / writable length. R-KINDFLIP: in _defineOwnProperty (the one decision table behind defineProperty for every key kind and most object kinds) every descriptor test that controls an assignment of valueProperty.accessor is also consulted by the if-condition that compares the descriptor's kind with existing.accessor (otherwise a descriptor satisfying only that test converts a non-configurable property), and each flip clears the payload of the other kind on the same record. R-LAZYNAMES ('lazily-templated built-ins and global object'): a templatedObject's propNames is nil (= the template's names) until materialisePropNames(); every statically resolved call of a baseObject method that may write propNames, made on the baseObject embedded in a templated object, is preceded on every path by materialisePropNames()/materialiseProps() on the same object or lies behind a test that the key exists; and no baseObject method that tests key presence in `values` by a comma-ok lookup is called on a templated object (which keeps deleted template properties as keys with a nil value). R-DESCFIRST: in a function that both converts descriptors (toPropertyDescriptor) and defines properties, no conversion is reachable from a definition: ObjectDefineProperties reads all descriptors before it defines the first property, so that a throwing later descriptor leaves the target untouched.",
		Technique:  "control dependence on a receiver-identity test (SSA); method-set matrix closure over go/types with virtual-dispatch discharge; dominance of a refresh call; controlling-condition sets of counter decrements",
		DesignRef:  "DESIGN.md section 4, C04",
		NotCovered: "the decision table of ValidateAndApplyPropertyDescriptor (_defineOwnProperty), the sorting done by fixPropOrder itself, freeze/seal outcomes, ArraySetLength, per-kind exotic semantics: value-level; R-EXTENSIBLE is not armed",
	},
	{
		ID:    "C05",
		Rules: []*core.Rule{rules.NumBirth, rules.NumRange, rules.JSWhitespace, rules.KeyNorm, rules.FloatConv},
		Explanation: "Canonical numeric representation (no integral float in ±2^53 other than -0 is ever stored as valueFloat) is a necessary condition for SameValue/===/Map-key equality of equal numbers, because valueInt.SameAs/hash compare representations. " +
			"R-NUMBIRTH enumerates every SSA birth of a valueFloat in the module (Convert/ChangeType from a non-valueFloat, arithmetic on valueFloat) and requires an enumerated idiom: a constant that is not an integer in ±2^53, math.NaN/Inf, the -0 package constant, or a birth on the ok==false edge of floatToInt applied to the same SSA value. " +
			"R-NUMRANGE (sibling agreement): the comparisons with +-2^53 controlling the valueInt result of intToValue and the ok=true result of floatToInt admit the boundary value in both (a finite question about comparison operators, not about values). " +
			"R-JSWHITESPACE: StringToNumber/trim use ECMAScript's white-space set: in package goja strings.TrimSpace/Fields are applied only to the content of an asciiString (below 0x80 Go's and ECMAScript's sets coincide); every other string is trimmed with parser.WhitespaceChars. R-KEYNORM (see C18): Map/Set normalise a -0 key to +0 in lookup and in set, so that the two zeros are one key. R-FLOATCONV: every float64 -> integer conversion in the engine has an operand that a small interval analysis (constants, math.Mod with a constant modulus, Floor/Trunc/Abs, +-constant, phis, and the comparisons with constants that control the block) places strictly inside the int64 range, or is validated by the round-trip idiom (converted back and compared with the operand); Go leaves the conversion undefined outside the range, where ToInt32/ToUint32/... are defined modulo 2^n and ToIntegerOrInfinity clamps. The dtoa/Grisu internals are listed as not decided.",
		Technique:  "who-may-construct rule over SSA births of valueFloat + dominance by the floatToInt !ok edge; comparison-operator agreement between sibling canonicalisers; who-may-call with argument typing",
		DesignRef:  "DESIGN.md section 4, C05",
		NotCovered: "that toInt32/ToNumber/string->number compute the right number; the Equals/hash tables themselves; valueInt range (R-INTBIRTH not armed)",
	},
}

func ByID(id string) *Prop {
	for _, p := range All {
		if p.ID == id {
			return p
		}
	}
	return nil
}

func Common() []string { return commonAssumptions }
